package main

import (
	"bytes"
	"fmt"
	"io"
	"regexp"
	"sort"
	"strings"
	"unicode"
	"unicode/utf8"

	"github.com/tdewolff/parse/v2"
	"github.com/tdewolff/parse/v2/js"
)

// ---- C06: JS lexer (js/lex.go) ---------------------------------------------------------------
//
// Correspondence case "jslex":  |tab| (rune flags)*  |data| data  ops...
//   tab   classification, computed here with Go's unicode tables, of every rune that
//         Input.PeekRune can compute at a lead byte (>= 0xC0) of data: flags bit0 = identifierStart,
//         bit1 = identifierContinue, bit2 = Zs.  (The model takes the three classes as parameters.)
//   ops   0 = Next, 1 = RegExp, 2 = Next followed by RegExp when Next returned '/' or '/='
// Observation per call: tt, len(data) (-1 for nil), data, Offset(), Pos(), error kind; -1 = panic.

var c06JsIDStart = []*unicode.RangeTable{unicode.Lu, unicode.Ll, unicode.Lt, unicode.Lm, unicode.Lo, unicode.Nl, unicode.Other_ID_Start}
var c06JsIDContinue = []*unicode.RangeTable{unicode.Lu, unicode.Ll, unicode.Lt, unicode.Lm, unicode.Lo, unicode.Nl, unicode.Mn, unicode.Mc, unicode.Nd, unicode.Pc, unicode.Other_ID_Continue}

func c06JsRuneTable(d []byte) []int64 {
	cp := make([]byte, len(d))
	copy(cp, d)
	in := parse.NewInputBytes(cp)
	seen := map[rune]bool{}
	var out []int64
	for i, c := range d {
		if c < 0xC0 {
			continue
		}
		r, _ := in.PeekRune(i)
		if seen[r] {
			continue
		}
		seen[r] = true
		f := int64(0)
		if unicode.IsOneOf(c06JsIDStart, r) {
			f |= 1
		}
		if unicode.IsOneOf(c06JsIDContinue, r) {
			f |= 2
		}
		if unicode.Is(unicode.Zs, r) {
			f |= 4
		}
		out = append(out, int64(r), f)
	}
	return out
}

func c06JsCase(d []byte, ops []int64, note string) Case {
	tab := c06JsRuneTable(d)
	args := []int64{int64(len(tab))}
	args = append(args, tab...)
	args = append(args, bytesToArgs(d)...)
	args = append(args, ops...)
	if note == "" {
		note = fmt.Sprintf("%q ops=%v", d, ops)
	} else {
		note = fmt.Sprintf("%s %q ops=%v", note, d, ops)
	}
	return Case{Fn: "jslex", Args: args, Note: note}
}

func c06JsCaseParts(c Case) (d []byte, ops []int64) {
	_, rest := takeList(c.Args)
	dv, ops := takeList(rest)
	return toBytes(dv), ops
}

func c06JsErrKind(e error) int64 {
	if e == nil {
		return 0
	}
	if e == io.EOF {
		return 1
	}
	pe, ok := e.(*parse.Error)
	if !ok {
		return 99
	}
	m := pe.Message
	switch {
	case strings.HasPrefix(m, "unexpected identifier after number"):
		return 3
	case strings.HasPrefix(m, "unexpected EOF in comment"):
		return 4
	case strings.HasPrefix(m, "unexpected EOF or newline"):
		return 10
	case strings.HasPrefix(m, "legacy octal"):
		return 5
	case strings.HasPrefix(m, "invalid number"):
		return 6
	case strings.HasPrefix(m, "unterminated string"):
		return 7
	case strings.HasPrefix(m, "unterminated template"):
		return 8
	case strings.HasPrefix(m, "expected / or /="):
		return 9
	case strings.HasPrefix(m, "unexpected "):
		return 2
	}
	return 98
}

func c06JsImpl(c Case) []int64 {
	d, ops := c06JsCaseParts(c)
	in := parse.NewInputBytes(d)
	l := js.NewLexer(in)
	var out []int64
	obs := func(tt js.TokenType, data []byte) {
		out = append(out, int64(tt))
		if data == nil {
			out = append(out, -1)
		} else {
			out = append(out, int64(len(data)))
			for _, b := range data {
				out = append(out, int64(b))
			}
		}
		out = append(out, int64(in.Offset()), int64(in.Pos()), c06JsErrKind(l.Err()))
	}
	for _, o := range ops {
		var tt js.TokenType
		var data []byte
		if p := catch(func() {
			if o == 1 {
				tt, data = l.RegExp()
			} else {
				tt, data = l.Next()
			}
		}); p != nil {
			return append(out, -1)
		}
		obs(tt, data)
		if o == 2 && (tt == js.DivToken || tt == js.DivEqToken) {
			if p := catch(func() { tt, data = l.RegExp() }); p != nil {
				return append(out, -1)
			}
			obs(tt, data)
		}
	}
	return out
}

func c06RepOps(o int64, n int) []int64 {
	ops := make([]int64, n)
	for i := range ops {
		ops[i] = o
	}
	return ops
}

// ---- token generators (shared by the correspondence generator and the oracles) -------------------

type c06JsTok struct {
	tt   js.TokenType
	text string
}

// every punctuator / operator spelling the lexer can return, with its type looked up by Bytes()
var c06JsPunct = func() []c06JsTok {
	var out []c06JsTok
	for tt := js.TokenType(0x0201); tt <= js.EllipsisToken; tt++ {
		out = append(out, c06JsTok{tt, string(tt.Bytes())})
	}
	for tt := js.TokenType(0x0601); tt <= js.OptChainToken; tt++ {
		out = append(out, c06JsTok{tt, string(tt.Bytes())})
	}
	return out
}()

var c06JsKeywordList = func() []c06JsTok {
	var out []c06JsTok
	for k, v := range js.Keywords {
		out = append(out, c06JsTok{v, k})
	}
	sort.Slice(out, func(i, j int) bool { return out[i].text < out[j].text })
	return out
}()

// the low end of every UTF-8 lead-byte class is in both lists: U+00AA U+00B5 U+00BA (lead 0xC2), U+00C0 (0xC3), U+0100 (0xC4),
// U+0800 (0xE0), U+10000 (0xF0); ID_Continue-only runes (U+00B7, U+0300, ...) and ZWNJ / ZWJ in non-initial position
var c06JsIdentStartRunes = []rune{'a', 'Z', '$', '_', '\u00E9', '\u03C0', '\u01C5', '\u02B0', '\u540D', '\u2182', 0x1D49C, 0x2118, 'x', 'n', 'e',
	0x00AA, 0x00B5, 0x00BA, 0x00C0, 0x0100, 0x0800, 0x10000}
var c06JsIdentContRunes = []rune{'a', 'Z', '$', '_', '0', '9', '\u00E9', '\u540D', 0x0301, 0x0903, '\u0663', '\u203F', 0x200C, 0x200D, 0x00B7, 0x1D49C, 'u',
	0x00AA, 0x00B5, 0x00BA, 0x00C0, 0x0100, 0x0800, 0x10000, 0x0300}

func c06GenJsIdent(r *Rng) string {
	var sb strings.Builder
	esc := func(c rune) {
		switch r.Intn(3) {
		case 0:
			fmt.Fprintf(&sb, "\\u%04X", c&0xFFFF)
		case 1:
			fmt.Fprintf(&sb, "\\u{%X}", c)
		default:
			fmt.Fprintf(&sb, "\\u{%06x}", c)
		}
	}
	c := c06JsIdentStartRunes[r.Intn(len(c06JsIdentStartRunes))]
	if r.Chance(1, 6) && c <= 0xFFFF {
		esc(c)
	} else {
		sb.WriteRune(c)
	}
	n := r.Intn(6)
	for i := 0; i < n; i++ {
		c := c06JsIdentContRunes[r.Intn(len(c06JsIdentContRunes))]
		if r.Chance(1, 8) && c <= 0xFFFF {
			esc(c)
		} else {
			sb.WriteRune(c)
		}
	}
	return sb.String()
}

func c06GenDigits(r *Rng, digs string, min int) string {
	var sb strings.Builder
	n := min + r.Intn(4)
	for i := 0; i < n; i++ {
		if i > 0 && r.Chance(1, 4) {
			sb.WriteByte('_')
		}
		sb.WriteByte(digs[r.Intn(len(digs))])
	}
	return sb.String()
}

func c06GenJsNumber(r *Rng) c06JsTok {
	switch r.Intn(9) {
	case 0:
		p := r.PickStr([]string{"0x", "0X"})
		s := p + c06GenDigits(r, "0123456789abcdefABCDEF", 1)
		if r.Chance(1, 3) {
			s += "n"
		}
		return c06JsTok{js.HexadecimalToken, s}
	case 1:
		s := r.PickStr([]string{"0b", "0B"}) + c06GenDigits(r, "01", 1)
		if r.Chance(1, 3) {
			s += "n"
		}
		return c06JsTok{js.BinaryToken, s}
	case 2:
		s := r.PickStr([]string{"0o", "0O"}) + c06GenDigits(r, "01234567", 1)
		if r.Chance(1, 3) {
			s += "n"
		}
		return c06JsTok{js.OctalToken, s}
	case 3:
		return c06JsTok{js.IntegerToken, r.PickStr([]string{"0", "0n", "7", "9n"})}
	case 4:
		s := string("123456789"[r.Intn(9)]) + c06GenDigits(r, "0123456789", 0)
		if strings.HasSuffix(s, "_") {
			s += "0"
		}
		if r.Chance(1, 3) {
			s += "n"
		}
		return c06JsTok{js.IntegerToken, s}
	}
	// decimal forms
	var s string
	switch r.Intn(4) {
	case 0:
		s = "." + c06GenDigits(r, "0123456789", 1)
	case 1:
		s = r.PickStr([]string{"0", "5", "12", "1_0"}) + "."
	case 2:
		s = r.PickStr([]string{"0", "5", "12", "9_9"}) + "." + c06GenDigits(r, "0123456789", 1)
	default:
		s = r.PickStr([]string{"0", "5", "12", "3_4"})
	}
	if r.Bool() || !strings.Contains(s, ".") {
		s += r.PickStr([]string{"e", "E"}) + r.PickStr([]string{"", "+", "-"}) + c06GenDigits(r, "0123456789", 1)
	}
	return c06JsTok{js.DecimalToken, s}
}

var c06JsStringPieces = []string{"a", " ", "x1", "\u00E9", "\u540D", "\u2028", "\u2029", "\\n", "\\\\", "\\'", "\\\"", "\\x41", "\\u0041", "\\u{1F600}",
	"\\\n", "\\\r", "\\\r\n", "\\\u2028", "\\\u2029", "\\0", "/", "*/", "//", "${", "`", "\x00", "\\\\\\\\", "\\a"}

func c06GenJsString(r *Rng) string {
	q := r.PickStr([]string{"'", "\""})
	other := "\""
	if q == "\"" {
		other = "'"
	}
	var sb strings.Builder
	sb.WriteString(q)
	n := r.Intn(6)
	for i := 0; i < n; i++ {
		if r.Chance(1, 8) {
			sb.WriteString(other)
		} else {
			sb.WriteString(r.PickStr(c06JsStringPieces))
		}
	}
	sb.WriteString(q)
	return sb.String()
}

var c06JsTemplatePieces = []string{"a", " ", "\n", "\r\n", "\u00E9", "\u540D", "$", "$$", "{", "}", "\\`", "\\$", "\\\\", "\\${", "'", "\"", "//", "/*", "\u2028", "\\u0041", "$ {", "\x00x"}

func c06GenJsTemplateChars(r *Rng) string {
	var sb strings.Builder
	n := r.Intn(5)
	last := byte(0)
	for i := 0; i < n; i++ {
		p := r.PickStr(c06JsTemplatePieces)
		if last == '$' && p[0] == '{' {
			sb.WriteByte('a') // "$" + "{" from two pieces would open a substitution
		}
		sb.WriteString(p)
		last = p[len(p)-1]
	}
	return sb.String()
}

var c06JsWsPieces = []string{" ", "\t", "\v", "\f", "\u00A0", "\uFEFF", "\u2003", "\u3000", "\u1680", "  "}
var c06JsLtPieces = []string{"\n", "\r", "\r\n", "\u2028", "\u2029", "\n\n", "\r\r\n"}
var c06JsCommentBody = []string{"", "c", " x ", "\u00E9\u540D", "*", "/", "/*", "//", "'", "`", "${", "-->", "<!--", "* /", "\x00"}

// c06JsSeq builds a token sequence together with its source.
type c06JsSeq struct {
	r        *Rng
	toks     []c06JsTok
	src      strings.Builder
	lineHead bool // only whitespace since the last line terminator (or the start)
	lastSep  int  // 0 none, 1 ws, 2 lt, 3 multi-line comment, 4 single-line comment (needs lt next)
	atEnd    bool // the separator being emitted ends the input: a single-line comment may end at EOF
}

func (g *c06JsSeq) put(tt js.TokenType, text string) {
	// adjacent whitespace (or line terminators) are one token
	if n := len(g.toks); n > 0 && g.toks[n-1].tt == tt && (tt == js.WhitespaceToken || tt == js.LineTerminatorToken) {
		g.toks[n-1].text += text
	} else {
		g.toks = append(g.toks, c06JsTok{tt, text})
	}
	g.src.WriteString(text)
}

func (g *c06JsSeq) lastByte() byte {
	s := g.src.String()
	if len(s) == 0 {
		return 0
	}
	return s[len(s)-1]
}

// sep emits a separator: whitespace, line terminators, comments; at least one element when must.
func (g *c06JsSeq) sep(must bool) {
	r := g.r
	n := r.Intn(3)
	if must && n == 0 {
		n = 1
	}
	for i := 0; i < n; i++ {
		k := 1 + r.Intn(5)
		if g.lastSep == 4 {
			k = 2 // a single-line comment ends at a line terminator only
		}
		if k == g.lastSep && k <= 2 {
			k = 3 - k
		}
		if (k == 3 || k == 4) && g.lastByte() == '/' {
			k = 1 // "/" + "/*" or "//" would start the comment one byte early
		}
		if k == 5 && g.lastByte() == '<' {
			k = 1 // "<" + "<!--" is "<<" "!" "--"
		}
		switch k {
		case 1:
			g.put(js.WhitespaceToken, r.PickStr(c06JsWsPieces))
		case 2:
			g.put(js.LineTerminatorToken, r.PickStr(c06JsLtPieces))
			g.lineHead = true
		case 3:
			body := r.PickStr(c06JsCommentBody) + r.PickStr(c06JsCommentBody)
			body = strings.ReplaceAll(body, "*/", "* /")
			tt := js.CommentToken
			if r.Chance(1, 3) {
				body += r.PickStr(c06JsLtPieces) + r.PickStr(c06JsCommentBody)
				body = strings.ReplaceAll(body, "*/", "* /")
				tt = js.CommentLineTerminatorToken
				g.lineHead = true
			} else {
				g.lineHead = false
			}
			g.put(tt, "/*"+body+"*/")
		case 4:
			body := r.PickStr(c06JsCommentBody) + r.PickStr(c06JsCommentBody)
			g.put(js.CommentToken, "//"+body)
			g.lineHead = false
		default:
			body := r.PickStr(c06JsCommentBody)
			if g.lineHead && r.Bool() {
				g.put(js.CommentToken, "-->"+body)
			} else {
				g.put(js.CommentToken, "<!--"+body)
			}
			g.lineHead = false
			k = 4
		}
		g.lastSep = k
	}
	if g.lastSep == 4 && !(g.atEnd && r.Bool()) {
		g.put(js.LineTerminatorToken, r.PickStr(c06JsLtPieces))
		g.lineHead = true
		g.lastSep = 2
	}
}

// tokens that never merge with a neighbour: ( ) [ ] { } ; , : and the template delimiters
func c06JsSafeLeft(t c06JsTok) bool {
	switch t.tt {
	case js.OpenParenToken, js.CloseParenToken, js.OpenBracketToken, js.CloseBracketToken, js.OpenBraceToken, js.CloseBraceToken,
		js.SemicolonToken, js.CommaToken, js.ColonToken, js.TemplateStartToken, js.TemplateMiddleToken:
		return true
	}
	return false
}

func c06JsSafeRight(tt js.TokenType) bool {
	switch tt {
	case js.OpenParenToken, js.CloseParenToken, js.OpenBracketToken, js.CloseBracketToken, js.OpenBraceToken, js.CloseBraceToken,
		js.SemicolonToken, js.CommaToken, js.ColonToken, js.TemplateMiddleToken, js.TemplateEndToken:
		return true
	}
	return false
}

// c06JsIsPunct reports whether t is one of the punctuator / operator spellings.
func c06JsIsPunct(t c06JsTok) bool {
	for _, p := range c06JsPunct {
		if p.tt == t.tt && p.text == t.text {
			return true
		}
	}
	return false
}

// c06JsExactAdj: the exact separation rule (Coq: stops) for a punctuator or a numeric literal directly followed by
// next — no punctuator that properly extends prev is a prefix of prev+next (except "?." before a digit), no comment
// opener, no ".5"; '.' directly after a numeric literal that is not a plain decimal integer.
func c06JsExactAdj(prev c06JsTok, tt js.TokenType, next string) bool {
	if next == "" {
		return false
	}
	c := next[0]
	digit := c >= '0' && c <= '9'
	if c06JsIsPunct(prev) {
		all := prev.text + next
		for _, p := range c06JsPunct {
			if len(p.text) > len(prev.text) && strings.HasPrefix(p.text, prev.text) && strings.HasPrefix(all, p.text) {
				if prev.text == "?" && len(next) > 1 && c == '.' && next[1] >= '0' && next[1] <= '9' {
					continue // "?." before a digit is '?' ".5"
				}
				return false
			}
		}
		switch prev.text {
		case ".", "?.":
			return !digit
		case "/":
			return c != '/' && c != '*'
		case "<":
			return !strings.HasPrefix(next, "!--")
		case "--":
			return c != '>'
		case "}":
			return false // template bookkeeping decides what "}" is
		}
		return true
	}
	switch prev.tt {
	case js.DecimalToken, js.BinaryToken, js.OctalToken, js.HexadecimalToken, js.IntegerToken:
		plain := true
		for i := 0; i < len(prev.text); i++ {
			if !(prev.text[i] >= '0' && prev.text[i] <= '9' || prev.text[i] == '_') {
				plain = false
			}
		}
		return c == '.' && !plain && c06JsIsPunct(c06JsTok{tt, next})
	}
	return false
}

// unit emits a non-separator token, first separating it from the previous one where needed.
func (g *c06JsSeq) unit(tt js.TokenType, text string) {
	need := true
	if g.src.Len() == 0 || g.lastSep != 0 {
		need = false
	} else if c06JsSafeLeft(g.toks[len(g.toks)-1]) || c06JsSafeRight(tt) {
		need = false
	} else if tt != js.RegExpToken && g.r.Bool() && c06JsExactAdj(g.toks[len(g.toks)-1], tt, text) {
		need = false // adjacent under the exact rule: "=-", "!!", "-1", "0x1F.", ...
		// the rule looks at everything that follows a token: '.' '.' '.' and '<' '!' '--' would merge across three tokens
		src := g.src.String()
		if len(src) > 3 {
			src = src[len(src)-3:]
		}
		if strings.Contains(src+text, "<!--") || strings.Contains(src+text, "...") {
			need = true
		}
	}
	if need || (g.lastSep == 0 && g.r.Chance(1, 3)) {
		g.sep(need)
	}
	g.put(tt, text)
	g.lineHead = false
	g.lastSep = 0
}

// item emits one expression-like item; braces and parentheses only in balanced form when inTpl.
func (g *c06JsSeq) item(depth int, inTpl bool) {
	r := g.r
	switch k := r.Intn(15); {
	case k <= 2:
		id := c06GenJsIdent(r)
		if tt, ok := js.Keywords[id]; ok {
			g.unit(tt, id)
		} else {
			g.unit(js.IdentifierToken, id)
		}
	case k == 3:
		kw := c06JsKeywordList[r.Intn(len(c06JsKeywordList))]
		g.unit(kw.tt, kw.text)
	case k <= 6:
		p := c06JsPunct[r.Intn(len(c06JsPunct))]
		if strings.ContainsAny(p.text, "(){}") && (inTpl || r.Bool()) {
			p = c06JsPunct[6+r.Intn(7)] // . ; , ? : => ...
		}
		g.unit(p.tt, p.text)
	case k <= 8:
		n := c06GenJsNumber(r)
		g.unit(n.tt, n.text)
	case k == 9:
		g.unit(js.StringToken, c06GenJsString(r))
	case k == 10:
		g.unit(js.PrivateIdentifierToken, "#"+c06GenJsIdent(r))
	case k == 11 && depth < 3:
		// balanced group
		if r.Bool() {
			g.unit(js.OpenParenToken, "(")
			g.items(r.Intn(3), depth+1, inTpl)
			g.unit(js.CloseParenToken, ")")
		} else {
			g.unit(js.OpenBraceToken, "{")
			g.items(r.Intn(3), depth+1, inTpl)
			g.unit(js.CloseBraceToken, "}")
		}
	case (k == 12 || k == 13) && depth < 3:
		g.template(depth)
	case k == 14:
		// a regular expression literal: the driver calls Next ('/' or '/=') and then RegExp()
		g.unit(js.RegExpToken, c06GenJsRegex(r, r.Chance(1, 4)))
	default:
		g.unit(js.IdentifierToken, "v")
	}
}

func (g *c06JsSeq) items(n, depth int, inTpl bool) {
	for i := 0; i < n; i++ {
		g.item(depth, inTpl)
	}
}

func (g *c06JsSeq) template(depth int) {
	r := g.r
	nsub := r.Intn(3)
	if nsub == 0 {
		g.unit(js.TemplateToken, "`"+c06GenJsTemplateChars(r)+"`")
		return
	}
	g.unit(js.TemplateStartToken, "`"+c06GenJsTemplateChars(r)+"${")
	for i := 0; i < nsub; i++ {
		g.items(r.Intn(3), depth+1, true)
		if i+1 < nsub {
			g.unit(js.TemplateMiddleToken, "}"+c06GenJsTemplateChars(r)+"${")
		} else {
			g.unit(js.TemplateEndToken, "}"+c06GenJsTemplateChars(r)+"`")
		}
	}
}

func c06GenJsSeq(r *Rng, n int) ([]c06JsTok, string) {
	g := &c06JsSeq{r: r, lineHead: true}
	if r.Chance(1, 4) {
		g.sep(true)
	}
	g.items(n, 0, false)
	if r.Chance(1, 2) {
		g.atEnd = true
		g.sep(true)
	}
	return g.toks, g.src.String()
}

// well-formed regular expression literal: body and flags
var c06JsRegexPieces = []string{"a", "b+", ".", "\\/", "\\\\", "[/]", "[a/b]", "[\\]/]", "[^/\\]]", "(x)", "\\d", "\u00E9", "\u540D", "[[]", "]", "\\[", "{1,2}", "=", "*", "?", "\\u0041", "\x00", "$", "^", "|", " ", "'", "`", "[\\\\]"}

func c06GenJsRegex(r *Rng, afterEq bool) string {
	var sb strings.Builder
	n := 1 + r.Intn(5)
	for i := 0; i < n; i++ {
		p := r.PickStr(c06JsRegexPieces)
		if i == 0 && !afterEq && (p[0] == '*' || p[0] == '=' || p == "\\/" && false) {
			p = "a" // "/*" would be a comment and "/=" another token
		}
		if i == 0 && !afterEq && p[0] == '/' {
			p = "a"
		}
		sb.WriteString(p)
	}
	body := sb.String()
	flags := r.PickStr([]string{"", "g", "gi", "dgimsuy", "\u00E9", "g\u200C", "_$9"})
	if afterEq {
		return "/=" + body + "/" + flags
	}
	return "/" + body + "/" + flags
}

// ---- correspondence generator -------------------------------------------------------------------

var c06JsAlphabet = []byte{'a', 'u', 'n', 'e', 'x', '0', '1', '_', '.', '/', '*', '\\', '{', '}', '`', '$', '\'', '"', '\n', '\r', ' ',
	'=', '<', '>', '!', '-', '?', '#', '[', '+', 0x00, 0xE2, 0x80, 0xA8, 0xC2, 0xA0}

// spellings for the all-pairs sweep (every pair is lexed with no separator in between)
var c06JsVocabulary = func() []string {
	v := []string{"a", "if", "in", "$", "\\u0061", "\u00E9", "0", "1", "1n", "0x1", "0b1", "0o7", ".5", "1.", "1e1", "1_0", "0.", "00",
		"'s'", "\"s\"", "'\\", "`t`", "`t${", "}t${", "}t`", "//c", "/*c*/", "/*\n*/", "/*", "<!--c", "-->c", " ", "\t", "\n", "\r", "\u2028",
		"\u00A0", "#a", "#", "\\", "\x00", "\xE2", "\xE2\x80", "\x80", "\xFF", "e", "n", "x", "_", "u", "/a/", "[", "]"}
	for _, p := range c06JsPunct {
		v = append(v, p.text)
	}
	return v
}()

func c06MutateJs(r *Rng, s []byte) []byte {
	out := append([]byte{}, s...)
	n := 1 + r.Intn(3)
	for i := 0; i < n; i++ {
		if len(out) == 0 {
			out = append(out, r.Pick(c06JsAlphabet))
			continue
		}
		p := r.Intn(len(out))
		switch r.Intn(8) {
		case 0:
			out[p] = byte(r.Intn(256))
		case 1:
			out = append(out[:p], out[p+1:]...)
		case 2:
			out = append(out[:p], append([]byte{0}, out[p:]...)...)
		case 3:
			bad := [][]byte{{0x80}, {0xC0}, {0xE2}, {0xE2, 0x80}, {0xF0, 0x9F}, {0xFF}, {0xC2}, {0xE2, 0x40, 0x28}, {0xF2, 0x80, 0xA8}, {0xED, 0xA0, 0x80}}[r.Intn(10)]
			out = append(out[:p], append(append([]byte{}, bad...), out[p:]...)...)
		case 4:
			out = out[:p]
		case 5:
			out = append(out[:p], append([]byte{r.Pick(c06JsAlphabet)}, out[p:]...)...)
		case 6:
			q := r.Intn(len(out))
			if p > q {
				p, q = q, p
			}
			out = append(out[:q], append(append([]byte{}, out[p:q]...), out[q:]...)...)
		default:
			out[p] = r.Pick(c06JsAlphabet)
		}
	}
	if len(out) > 400 {
		out = out[:400]
	}
	return out
}

func c06GenJsOps(r *Rng, n int) []int64 {
	switch r.Intn(4) {
	case 0:
		return c06RepOps(0, n)
	case 1:
		ops := make([]int64, n)
		for i := range ops {
			ops[i] = int64([]int{0, 0, 2, 2, 2, 1}[r.Intn(6)])
		}
		return ops
	}
	return c06RepOps(2, n)
}

func c06JsNumCalls(d []byte) int {
	n := len(d) + 2
	if n > 120 {
		n = 120
	}
	return n
}

var c06JslexModel = &Model{
	Name: "jslex",
	Gen: func(r *Rng, tier string, emit func(Case)) {
		// (a) exhaustive small scope
		k := 3
		if tier == "thorough" {
			k = 4
		}
		allStrings(c06JsAlphabet, k, func(d []byte) {
			emit(c06JsCase(d, c06RepOps(2, len(d)+2), "exh"))
			if bytes.IndexByte(d, '/') >= 0 {
				emit(c06JsCase(d, c06RepOps(0, len(d)+2), "exh"))
			}
		})
		// (b) every pair of vocabulary spellings without a separator, and after a number
		for _, a := range c06JsVocabulary {
			for _, b := range c06JsVocabulary {
				d := []byte(a + b)
				emit(c06JsCase(d, c06RepOps(2, len(d)+2), "pair"))
			}
			d := []byte("`${" + a + "}` " + a)
			emit(c06JsCase(d, c06RepOps(0, len(d)+2), "intpl"))
			d = []byte(a + "/x/g")
			emit(c06JsCase(d, append(c06RepOps(0, 1), c06RepOps(2, len(d))...), "re"))
		}
		// (c) structured token sequences, (d) malformed
		n := 3000
		if tier == "thorough" {
			n = 60000
		}
		for i := 0; i < n; i++ {
			_, src := c06GenJsSeq(r, 1+i%9)
			d := []byte(src)
			if r.Chance(1, 4) {
				re := c06GenJsRegex(r, r.Chance(1, 4))
				d = []byte(src + r.PickStr([]string{"", " ", "=", "("}) + re + r.PickStr([]string{"", ";", " a", "\n"}))
			}
			emit(c06JsCase(d, c06GenJsOps(r, c06JsNumCalls(d)), "seq"))
			m := c06MutateJs(r, d)
			emit(c06JsCase(m, c06GenJsOps(r, c06JsNumCalls(m)), "mut"))
			if i%3 == 0 {
				m2 := c06MutateJs(r, m)
				emit(c06JsCase(m2, c06GenJsOps(r, c06JsNumCalls(m2)), "mut"))
			}
		}
	},
	Impl: c06JsImpl,
	Shrink: func(c Case) []Case {
		d, ops := c06JsCaseParts(c)
		var out []Case
		for i := range d {
			nd := append(append([]byte{}, d[:i]...), d[i+1:]...)
			out = append(out, c06JsCase(nd, ops, "shrunk"))
		}
		if len(ops) > 1 {
			out = append(out, c06JsCase(d, ops[:len(ops)-1], "shrunk"))
			out = append(out, c06JsCase(d, ops[1:], "shrunk"))
		}
		return out
	},
	Class: func(c Case, out []int64) string {
		kind := strings.SplitN(c.Note, " ", 2)[0]
		res := "ok"
		if len(out) > 0 && out[len(out)-1] == -1 {
			res = "panic"
		} else {
			d, _ := c06JsCaseParts(c)
			if !utf8.Valid(d) {
				res = "badutf8"
			} else if len(out) > 0 && out[len(out)-1] > 1 {
				res = "lexerr"
			}
		}
		return kind + "/" + res
	},
}

// ---- oracles: the property text checked directly on the implementation ---------------------------

type c06JsLexed struct {
	tt   js.TokenType
	data []byte
	off  int // Offset() after the call
}

// c06JsLexAll runs Next until an ErrorToken (included) or max calls.
func c06JsLexAll(d []byte, regexAfterSlash bool) (toks []c06JsLexed, err error, panicked interface{}) {
	in := parse.NewInputBytes(append(make([]byte, 0, len(d)+1), d...))
	l := js.NewLexer(in)
	panicked = catch(func() {
		for i := 0; i < len(d)+3; i++ {
			tt, data := l.Next()
			if regexAfterSlash && (tt == js.DivToken || tt == js.DivEqToken) {
				tt, data = l.RegExp()
			}
			toks = append(toks, c06JsLexed{tt, data, in.Offset()})
			if tt == js.ErrorToken {
				err = l.Err()
				return
			}
		}
	})
	return
}

// c06JsLexSeq lexes d the way a parser would that knows where the regular expression literals of want are:
// Next, and RegExp() after the '/' or '/=' that opens one. first reports a wrong opening token.
func c06JsLexSeq(d []byte, want []c06JsTok) (toks []c06JsLexed, err error, first string, panicked interface{}) {
	in := parse.NewInputBytes(append(make([]byte, 0, len(d)+1), d...))
	l := js.NewLexer(in)
	panicked = catch(func() {
		for i := 0; i < len(d)+3; i++ {
			tt, data := l.Next()
			if i < len(want) && want[i].tt == js.RegExpToken && (tt == js.DivToken || tt == js.DivEqToken) {
				wantEq := len(want[i].text) > 1 && want[i].text[1] == '='
				if (tt == js.DivEqToken) != wantEq && first == "" {
					first = fmt.Sprintf("Next returned %v at the start of the literal %q", tt, want[i].text)
				}
				tt, data = l.RegExp()
			}
			toks = append(toks, c06JsLexed{tt, data, in.Offset()})
			if tt == js.ErrorToken {
				err = l.Err()
				return
			}
		}
	})
	return
}

func c06JsHasLT(b []byte) bool {
	return bytes.ContainsAny(b, "\n\r") || bytes.Contains(b, []byte("\u2028")) || bytes.Contains(b, []byte("\u2029"))
}

// checks that hold for every input: tiling, canonical types, comment kind, re-lexing (valid UTF-8)
func c06JsCheckGeneric(d []byte, rep *Report, bucket string) {
	replay := map[string]interface{}{"input": q(d), "hex": hx(d)}
	toks, err, p := c06JsLexAll(d, false)
	if p != nil {
		rep.Violate("c06-panic:"+hx(d), fmt.Sprintf("Next panics on %q: %v", d, p), replay)
		return
	}
	if len(toks) == 0 || toks[len(toks)-1].tt != js.ErrorToken {
		rep.Violate("c06-noend:"+hx(d), fmt.Sprintf("no ErrorToken within len+3 calls on %q", d), replay)
		return
	}
	valid := utf8.Valid(d)
	pos := 0
	for i, t := range toks[:len(toks)-1] {
		// tiling: every token before the first error is the next slice of the input, non-empty
		if len(t.data) == 0 || pos+len(t.data) > len(d) || !bytes.Equal(d[pos:pos+len(t.data)], t.data) || t.off != pos+len(t.data) {
			rep.Violate("c06-tiling:"+hx(d), fmt.Sprintf("token %d (%v %q) of %q is not the input slice at %d", i, t.tt, t.data, d, pos), replay)
			return
		}
		pos += len(t.data)
		// canonical type of keywords, punctuators, operators
		if js.IsPunctuator(t.tt) || js.IsOperator(t.tt) || js.IsReservedWord(t.tt) || (js.IsIdentifier(t.tt) && t.tt != js.IdentifierToken) {
			if !bytes.Equal(t.tt.Bytes(), t.data) {
				rep.Violate("c06-canonical:"+t.tt.String(), fmt.Sprintf("token %q has type %v whose spelling is %q (input %q)", t.data, t.tt, t.tt.Bytes(), d), replay)
			}
		}
		if t.tt == js.IdentifierToken {
			if kw, ok := js.Keywords[string(t.data)]; ok {
				rep.Violate("c06-canonical:ident:"+string(t.data), fmt.Sprintf("%q lexed as IdentifierToken, Keywords has %v", t.data, kw), replay)
			}
		}
		// numeric tokens are well-formed NumericLiterals (ECMA-262 12.9.3, with separators and BigInt suffix)
		if js.IsNumeric(t.tt) && !c06NumericRe[t.tt].Match(t.data) {
			rep.Violate("c06-numeric:"+hx(t.data), fmt.Sprintf("%v %q (from %q) is not a well-formed literal of that kind", t.tt, t.data, d), replay)
		}
		// comment kind
		if t.tt == js.CommentLineTerminatorToken && !c06JsHasLT(t.data) {
			rep.Violate("c06-comment-lt:"+hx(d), fmt.Sprintf("CommentLineTerminatorToken %q contains no line terminator", t.data), replay)
		}
		if t.tt == js.CommentToken && valid && bytes.HasPrefix(t.data, []byte("/*")) && c06JsHasLT(t.data) {
			rep.Violate("c06-comment-lt:"+hx(d), fmt.Sprintf("CommentToken %q contains a line terminator", t.data), replay)
		}
		// re-lexing the token text on its own (valid UTF-8 only: a truncated sequence decodes differently)
		if valid {
			sub, _, p2 := c06JsLexAll(t.data, false)
			ok := p2 == nil && len(sub) == 2 && sub[0].tt == t.tt && bytes.Equal(sub[0].data, t.data) && sub[1].tt == js.ErrorToken
			if !ok {
				key := "c06-relex:" + c06JsTTName(t.tt)
				if t.tt != js.TemplateMiddleToken && t.tt != js.TemplateEndToken {
					key += ":" + hx(t.data)
				}
				got := ""
				for _, s := range sub {
					got += fmt.Sprintf("%v %q; ", s.tt, s.data)
				}
				rep.Violate(key, fmt.Sprintf("token %v %q (from %q) lexed on its own gives %s", t.tt, t.data, d, got), map[string]interface{}{"input": q(d), "token": q(t.data)})
			}
		}
	}
	c06JsCheckToEOF(d, rep, replay)
	last := toks[len(toks)-1]
	if err == io.EOF && pos != len(d) && last.data != nil {
		rep.Violate("c06-tiling-eof:"+hx(d), fmt.Sprintf("EOF reported with %d of %d bytes in tokens (%q)", pos, len(d), d), replay)
	}
	rep.Eval(hx(d), len(toks) > 2, bucket)
}

var c06NumericRe = map[js.TokenType]*regexp.Regexp{
	js.DecimalToken:     regexp.MustCompile(`^((0|[1-9](_?[0-9])*)\.([0-9](_?[0-9])*)?|\.[0-9](_?[0-9])*|(0|[1-9](_?[0-9])*))([eE][+-]?[0-9](_?[0-9])*)?$`),
	js.IntegerToken:     regexp.MustCompile(`^(0|[1-9](_?[0-9])*)n?$`),
	js.BinaryToken:      regexp.MustCompile(`^0[bB][01](_?[01])*n?$`),
	js.OctalToken:       regexp.MustCompile(`^0[oO][0-7](_?[0-7])*n?$`),
	js.HexadecimalToken: regexp.MustCompile(`^0[xX][0-9a-fA-F](_?[0-9a-fA-F])*n?$`),
}

// c06JsCheckToEOF keeps calling Next after errors: no panic, every slice lies inside the input at the
// position the cursor reports, the cursor never passes the end, and io.EOF is reached within 2*len+3 calls.
func c06JsCheckToEOF(d []byte, rep *Report, replay map[string]interface{}) {
	in := parse.NewInputBytes(append(make([]byte, 0, len(d)+1), d...))
	l := js.NewLexer(in)
	done := false
	p := catch(func() {
		for i := 0; i < 2*len(d)+3; i++ {
			_, data := l.Next()
			off := in.Offset()
			if off < 0 || off > len(d) {
				rep.Violate("c06-overread:"+hx(d), fmt.Sprintf("%q: offset %d outside [0,%d] after call %d", d, off, len(d), i), replay)
				return
			}
			if data != nil && (off-len(data) < 0 || !bytes.Equal(d[off-len(data):off], data)) {
				rep.Violate("c06-overread:"+hx(d), fmt.Sprintf("%q: call %d returned %q, which is not the input before offset %d", d, i, data, off), replay)
				return
			}
			if data == nil && l.Err() == io.EOF {
				done = true
				return
			}
		}
	})
	if p != nil {
		rep.Violate("c06-panic:"+hx(d), fmt.Sprintf("Next panics on %q after an error: %v", d, p), replay)
	} else if !done && len(rep.Violations) < 40 {
		rep.Violate("c06-noeof:"+hx(d), fmt.Sprintf("%q: io.EOF not reported within 2*len+3 calls", d), replay)
	}
}

// c06GreedyOps tokenises a string made of punctuators, the identifier "a", spaces and "?.5 " by maximal
// munch over the punctuator list, written from ECMA-262 12.8 (with "?." [lookahead not a digit]).
func c06GreedyOps(s string) []c06JsTok {
	var out []c06JsTok
	for i := 0; i < len(s); {
		c := s[i]
		switch {
		case c == ' ':
			j := i
			for j < len(s) && s[j] == ' ' {
				j++
			}
			out = append(out, c06JsTok{js.WhitespaceToken, s[i:j]})
			i = j
		case c == 'a':
			j := i
			for j < len(s) && s[j] == 'a' {
				j++
			}
			out = append(out, c06JsTok{js.IdentifierToken, s[i:j]})
			i = j
		case c == '.' && i+1 < len(s) && s[i+1] >= '0' && s[i+1] <= '9':
			j := i + 1
			for j < len(s) && s[j] >= '0' && s[j] <= '9' {
				j++
			}
			out = append(out, c06JsTok{js.DecimalToken, s[i:j]})
			i = j
		default:
			best := c06JsTok{}
			for _, p := range c06JsPunct {
				if strings.HasPrefix(s[i:], p.text) && len(p.text) > len(best.text) {
					if p.tt == js.OptChainToken && i+2 < len(s) && s[i+2] >= '0' && s[i+2] <= '9' {
						continue
					}
					best = p
				}
			}
			if best.text == "" {
				return nil
			}
			out = append(out, best)
			i += len(best.text)
		}
	}
	return out
}

func c06JsTTName(tt js.TokenType) string {
	switch tt {
	case js.TemplateMiddleToken:
		return "TemplateMiddle"
	case js.TemplateEndToken:
		return "TemplateEnd"
	}
	return strings.TrimSuffix(tt.String(), "Token")
}

func c06Oracle(r *Rng, tier string, rep *Report) {
	// 1. token sequences from the lexical grammar with safe separators: exact types and texts
	n := 6000
	if tier == "thorough" {
		n = 300000
	}
	for it := 0; it < n; it++ {
		want, src := c06GenJsSeq(r, 1+it%12)
		d := []byte(src)
		got, err, first, p := c06JsLexSeq(d, want)
		replay := map[string]interface{}{"input": q(d), "hex": hx(d)}
		bad := ""
		if p != nil {
			bad = fmt.Sprintf("panic %v", p)
		} else if first != "" {
			bad = first
		} else if len(got) != len(want)+1 {
			bad = fmt.Sprintf("%d tokens, expected %d", len(got)-1, len(want))
		} else if err != io.EOF || got[len(got)-1].data != nil {
			bad = fmt.Sprintf("ends with error %v", err)
		}
		for i := 0; bad == "" && i < len(want); i++ {
			if got[i].tt != want[i].tt || string(got[i].data) != want[i].text {
				bad = fmt.Sprintf("token %d is %v %q, expected %v %q", i, got[i].tt, got[i].data, want[i].tt, want[i].text)
			}
		}
		if bad != "" {
			// name the first differing token for a stable key
			k := 0
			for k < len(want) && k < len(got) && got[k].tt == want[k].tt && string(got[k].data) == want[k].text {
				k++
			}
			key := "c06-seq:end"
			if k < len(want) {
				key = "c06-seq:" + c06JsTTName(want[k].tt) + ":" + hx([]byte(want[k].text))
			}
			rep.Violate(key, fmt.Sprintf("token sequence %q: %s", d, bad), replay)
		}
		rep.Eval(hx(d), len(want) >= 2, "seq")
		if it%4 == 0 {
			c06JsCheckGeneric(d, rep, "generic-seq")
			c06JsCheckGeneric(c06MutateJs(r, d), rep, "generic-mut")
		}
	}
	// 2. generic checks on small scope and on the pair sweep
	k := 2
	if tier == "thorough" {
		k = 3
	}
	allStrings(c06JsAlphabet, k, func(d []byte) { c06JsCheckGeneric(d, rep, "generic-exh") })
	for _, a := range c06JsVocabulary {
		for _, b := range c06JsVocabulary {
			c06JsCheckGeneric([]byte(a+b), rep, "generic-pair")
		}
	}
	// 3. RegExp() re-reads every well-formed literal after '/' or '/='
	m := 4000
	if tier == "thorough" {
		m = 200000
	}
	for it := 0; it < m; it++ {
		afterEq := r.Chance(1, 4)
		re := c06GenJsRegex(r, afterEq)
		pre := r.PickStr([]string{"", "a=", "x = ", "(", "return ", "1;", "`${", "\n"})
		post := r.PickStr([]string{"", ";", " ", "\n", ")", ".test(s)", " /2"})
		d := []byte(pre + re + post)
		replay := map[string]interface{}{"input": q(d), "regex": q([]byte(re))}
		in := parse.NewInputBytes(append(make([]byte, 0, len(d)+1), d...))
		l := js.NewLexer(in)
		found := false
		p := catch(func() {
			for i := 0; i < len(d)+3; i++ {
				tt, data := l.Next()
				if tt == js.ErrorToken {
					return
				}
				if in.Offset()-len(data) == len(pre) && (tt == js.DivToken || tt == js.DivEqToken) {
					if (tt == js.DivEqToken) != afterEq {
						rep.Violate("c06-regexp:first:"+hx([]byte(re)), fmt.Sprintf("%q: Next returned %v at the start of the literal %q", d, tt, re), replay)
					}
					tt2, data2 := l.RegExp()
					found = true
					if tt2 != js.RegExpToken || string(data2) != re {
						rep.Violate("c06-regexp:"+hx([]byte(re)), fmt.Sprintf("%q: RegExp() after %v returned %v %q, expected RegExpToken %q (err %v)", d, tt, tt2, data2, re, l.Err()), replay)
					}
					// the rest of the input must lex from the end of the literal
					if in.Offset() != len(pre)+len(re) {
						rep.Violate("c06-regexp:offset:"+hx([]byte(re)), fmt.Sprintf("%q: offset %d after RegExp(), expected %d", d, in.Offset(), len(pre)+len(re)), replay)
					}
					return
				}
			}
		})
		if p != nil {
			rep.Violate("c06-regexp:panic:"+hx(d), fmt.Sprintf("%q: panic %v", d, p), replay)
		} else if !found {
			rep.Violate("c06-regexp:missing:"+hx([]byte(pre)), fmt.Sprintf("%q: no '/' or '/=' token at offset %d", d, len(pre)), replay)
		}
		rep.Eval(hx(d), true, "regexp")
	}
	// 5. operator runs: maximal munch over the punctuator list for every neighbourhood
	var opPieces []string
	for _, p := range c06JsPunct {
		if !strings.Contains(p.text, "/") {
			opPieces = append(opPieces, p.text)
		}
	}
	opPieces = append(opPieces, "?.5 ", "?.0 ", "a", " ", "?", ".", ">", "=", "-", "<", "!")
	no := 6000
	if tier == "thorough" {
		no = 300000
	}
	for it := 0; it < no; it++ {
		var sb strings.Builder
		sb.WriteString("a")
		np := 1 + r.Intn(5)
		for i := 0; i < np; i++ {
			sb.WriteString(r.PickStr(opPieces))
		}
		src := sb.String()
		if strings.Contains(src, "<!--") {
			continue
		}
		want := c06GreedyOps(src)
		d := []byte(src)
		got, err, p := c06JsLexAll(d, false)
		bad := ""
		if want == nil {
			bad = "oracle cannot tokenise"
		} else if p != nil {
			bad = fmt.Sprintf("panic %v", p)
		} else if len(got) != len(want)+1 || err != io.EOF {
			bad = fmt.Sprintf("%d tokens (err %v), expected %d", len(got)-1, err, len(want))
		}
		k := 0
		for ; bad == "" && k < len(want); k++ {
			if got[k].tt != want[k].tt || string(got[k].data) != want[k].text {
				bad = fmt.Sprintf("token %d is %v %q, expected %v %q", k, got[k].tt, got[k].data, want[k].tt, want[k].text)
				break
			}
		}
		if bad != "" {
			key := "c06-munch:" + src
			if k < len(want) {
				key = "c06-munch:" + want[k].text + ":" + src[strings.Index(src, want[k].text):]
			}
			rep.Violate(trunc(key, 60), fmt.Sprintf("operator run %q: %s", src, bad), map[string]interface{}{"input": src})
		}
		rep.Eval(src, len(want) >= 3, "munch")
	}
	// 6. ECMA-262 B.1.1: SingleLineHTMLCloseComment :: LineTerminatorSequence HTMLCloseComment,
	// HTMLCloseComment :: WhiteSpaceSequence? SingleLineDelimitedCommentSequence? "-->" SingleLineCommentChars?
	// — after a line terminator, whitespace and "/*...*/" comments without a line terminator, "-->" opens a comment
	for it := 0; it < 300; it++ {
		var sb strings.Builder
		sb.WriteString(r.PickStr([]string{"", "a", "a;", "1"}))
		sb.WriteString(r.PickStr(c06JsLtPieces))
		if r.Bool() {
			sb.WriteString(r.PickStr(c06JsWsPieces))
		}
		nc := r.Intn(3) // 0: only whitespace before "-->"
		for i := 0; i < nc; i++ {
			sb.WriteString("/*" + strings.ReplaceAll(r.PickStr(c06JsCommentBody), "*/", "* /") + "*/")
			if r.Bool() {
				sb.WriteString(r.PickStr(c06JsWsPieces))
			}
		}
		at := sb.Len()
		cl := "-->" + r.PickStr(c06JsCommentBody)
		sb.WriteString(cl)
		sb.WriteString(r.PickStr(c06JsLtPieces))
		sb.WriteString("y")
		d := []byte(sb.String())
		toks, _, p := c06JsLexAll(d, false)
		ok := false
		for _, t := range toks {
			if t.off-len(t.data) == at && t.tt == js.CommentToken && string(t.data) == cl {
				ok = true
			}
		}
		if p != nil || !ok {
			key := "c06-htmlclose:at-line-start"
			if nc > 0 {
				key = "c06-htmlclose:after-comment"
			}
			rep.Violate(key, fmt.Sprintf("%q: %q after a line terminator (and whitespace / single-line /*...*/ comments) is not lexed as one CommentToken", d, cl),
				map[string]interface{}{"input": q(d)})
		}
		rep.Eval(hx(d), nc > 0, "htmlclose")
	}
	// 7. ECMA-262 12.9.3: "The SourceCharacter immediately following a NumericLiteral must not be an IdentifierStart
	// or DecimalDigit": a digit directly after a literal that it does not continue is a lexical error
	for it := 0; it < 300; it++ {
		num := c06GenJsNumber(r)
		dg := string(rune('0' + r.Intn(10)))
		d := []byte(num.text + dg)
		toks, _, p := c06JsLexAll(d, false)
		if p == nil && len(toks) >= 2 && toks[0].tt == num.tt && string(toks[0].data) == num.text && string(toks[1].data) != "" &&
			toks[1].data[0] == dg[0] && toks[1].tt != js.ErrorToken {
			rep.Violate("c06-numeric-follow:digit", fmt.Sprintf("%q: the digit %s directly after the numeric literal %q starts a second numeric token (%v %q), ECMA-262 12.9.3 forbids it",
				d, dg, num.text, toks[1].tt, toks[1].data), map[string]interface{}{"input": q(d)})
		}
		rep.Eval(hx(d), true, "numfollow")
	}
	// 4. comment kind, directly
	for it := 0; it < 2000; it++ {
		body := r.PickStr(c06JsCommentBody) + r.PickStr(c06JsCommentBody)
		hasLT := r.Bool()
		if hasLT {
			body += r.PickStr(c06JsLtPieces) + r.PickStr(c06JsCommentBody)
		}
		body = strings.ReplaceAll(body, "*/", "* /")
		d := []byte("/*" + body + "*/")
		toks, _, p := c06JsLexAll(d, false)
		want := js.CommentToken
		if hasLT {
			want = js.CommentLineTerminatorToken
		}
		if p != nil || len(toks) != 2 || toks[0].tt != want || !bytes.Equal(toks[0].data, d) {
			rep.Violate("c06-comment-lt:"+hx(d), fmt.Sprintf("%q: expected one %v", d, want), map[string]interface{}{"input": q(d)})
		}
		rep.Eval(hx(d), true, "comment")
	}
}

func init() {
	props["C06"] = &PropSpec{
		Models:  []*Model{c06JslexModel},
		Oracles: []*Oracle{{Name: "c06-js-lexical-grammar", Run: c06Oracle}},
	}
}
