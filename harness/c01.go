package main

import (
	"bytes"
	"fmt"
	"io"
	"os"
	"os/exec"
	"runtime/debug"
	"strings"
	"sync"
	"time"
	"unsafe"

	"github.com/tdewolff/parse/v2"
	"github.com/tdewolff/parse/v2/css"
	"github.com/tdewolff/parse/v2/html"
	"github.com/tdewolff/parse/v2/js"
	"github.com/tdewolff/parse/v2/json"
	"github.com/tdewolff/parse/v2/xml"
)

// ---- C01: no crash, hang or over-read (search part; the theorems are about the models) -----------

// every recursive construct of the JS grammar as (prefix, unit, suffix-per-unit, tail)
type nestSpec struct{ name, head, unit, close, tail string }

var jsNests = []nestSpec{
	{"array", "x=", "[", "]", ""}, {"paren", "x=", "(", ")", ""}, {"object", "x=", "{a:", "}", "1"},
	{"template", "x=", "`${", "}`", "1"}, {"new", "x=", "new ", "", "a"}, {"not", "x=", "!", "", "a"},
	{"neg", "x=", "-", "", "a"}, {"typeof", "x=", "typeof ", "", "a"}, {"await", "async function f(){x=", "await ", "", "a}"},
	{"yield", "function* f(){x=", "yield ", "", "a}"}, {"funcdefault", "", "function f(a=", "){}", "1"},
	{"classstatic", "", "class A{static{", "}}", ""}, {"letarray", "let ", "[", "]", "a"}, {"letobject", "let ", "{a:", "}", "b"},
	{"asynccall", "(", "async(", ")", ""}, {"cond", "x=", "a?", ":b", "c"}, {"assign", "", "a=", "", "b"},
	{"arrow", "x=", "a=>", "", "b"}, {"asyncarrow", "x=", "async a=>", "", "b"}, {"arrowparen", "x=", "(a)=>", "", "b"},
	{"if", "", "if(a)", "", ";"}, {"while", "", "while(a)", "", ";"}, {"for", "", "for(;;)", "", ";"},
	{"forin", "", "for(a in b)", "", ";"}, {"block", "", "{", "}", ""}, {"label", "", "a:", "", ";"},
	{"try", "", "try{", "}catch(e){}", ""}, {"switch", "", "switch(a){case 1:", "}", ""}, {"func", "", "function f(){", "}", ""},
	{"classextends", "x=", "class extends ", "{}", "A"}, {"index", "x=a", "[b", "]", ""}, {"call", "x=a", "(b", ")", ""},
	{"optcall", "x=a", "?.(b", ")", ""}, {"spreadarr", "x=", "[...", "]", "a"}, {"spreadobj", "x=", "({...", "})", "a"},
	{"binary", "x=a", "+(b", ")", ""}, {"comma", "x=(", "a,(", ")", "b)"}, {"exp", "x=", "a**", "", "b"},
	{"nullish", "x=", "a??", "", "b"}, {"dot", "x=a", ".b", "", ""}, {"tagged", "x=a", "`${b", "}`", ""},
	{"method", "x=", "{m(){return ", "}}", "1"}, {"getter", "x=", "{get a(){return ", "}}", "1"}, {"classmethod", "", "class A{m(){", "}}", ""},
	{"computed", "x=", "{[", "]:1}", "a"}, {"arrowbody", "x=", "()=>{return ", "}", "1"}, {"do", "", "do ", " while(a)", ";"},
	{"with", "", "with(a)", "", ";"}, {"export", "", "export default ", "", "a"}, {"paramarr", "function f(", "[", "]", "a"},
	{"arrowparamarr", "x=(", "[", "]", "a)=>1"}, {"arrowparamobj", "x=(", "{a:", "}", "b)=>1"}, {"catchparam", "try{}catch(", "[", "]", "a){}"},
	{"forlet", "for(let ", "[", "]", "a of b);"}, {"import", "x=", "import(", ")", "a"}, {"regexpdiv", "x=", "/a/.b(", ")", ""},
	{"delete", "x=", "delete ", "", "a"}, {"void", "x=", "void ", "", "a"}, {"incr", "x=", "+ +", "", "a"},
	{"group-assign", "", "[a=", "]=b", "1"}, {"objassign", "", "({a:", "}=b)", "c"}, {"in", "x=", "a in ", "", "b"},
}

var allJSOptions = []js.Options{{}, {WhileToFor: true}, {Inline: true}, {WhileToFor: true, Inline: true}}

type enterAll struct{ n int }

func (v *enterAll) Enter(n js.INode) js.IVisitor { v.n++; return v }
func (v *enterAll) Exit(n js.INode)              {}

// useTree exercises every consumer of a tree returned by js.Parse.
func useTree(ast *js.AST) {
	_ = ast.String()
	_ = ast.JSString()
	_, _ = ast.JSONString()
	var w bytes.Buffer
	ast.JS(&w)
	_ = ast.JSON(&w)
	js.Walk(&enterAll{}, ast)
}

// deepNestChild runs in a child process (a fatal stack overflow cannot be recovered).
func deepNestChild(args []string) {
	debug.SetMaxStack(64 << 20)
	depth := 1000000
	fmt.Sscan(args[0], &depth)
	only := ""
	if len(args) > 1 {
		only = args[1]
	}
	var wg sync.WaitGroup
	sem := make(chan struct{}, 12)
	for _, ns := range jsNests {
		if only != "" && ns.name != only {
			continue
		}
		ns := ns
		wg.Add(1)
		sem <- struct{}{}
		go func() {
			defer wg.Done()
			defer func() { <-sem }()
			for _, d := range []int{depth, 900, 300} {
				// unclosed (every truncation point is hit by other generators) and closed forms
				for _, closed := range []bool{false, true} {
					if d == depth && closed {
						continue
					}
					src := ns.head + strings.Repeat(ns.unit, d) + ns.tail
					if closed {
						src += strings.Repeat(ns.close, d)
					}
					for oi, o := range allJSOptions {
						if d == depth && oi%3 != 0 {
							continue // the deepest form under Options{} and {WhileToFor,Inline}
						}
						fmt.Printf("NEST %s %d %v %v\n", ns.name, d, closed, o)
						ast, err := js.Parse(parse.NewInputString(src), o)
						if err == nil {
							useTree(ast)
						}
					}
				}
			}
		}()
	}
	wg.Wait()
	// non-recursive consumers with deeply nested input (iterative by construction)
	others := []string{"(", "[", "{", "a{", "@media{", "<a>", "<a b=", "[{\"a\":", "<!--", "/*", "url(", "\"\\"}
	if only != "" {
		others = nil
	}
	for _, unit := range others {
		src := strings.Repeat(unit, depth/50) // iterative consumers; error construction is O(offset), keep it short
		fmt.Printf("NEST-other %q\n", unit)
		driveCSSLexer([]byte(src), 2)
		driveCSSParser([]byte(src), false, 2)
		driveCSSParser([]byte(src), true, 2)
		driveHTML([]byte(src), nil, 2)
		driveXML([]byte(src), 2)
		driveJSON([]byte(src), 2)
		driveJSLexer([]byte(src), 2)
	}
	fmt.Println("DEEPNEST-OK")
}

// inside reports whether tok lies within buf (tokens must be slices of the input).
func inside(tok, buf []byte) bool {
	if len(tok) == 0 {
		return true
	}
	if cap(buf) == 0 {
		return false
	}
	base := uintptr(unsafe.Pointer(&buf[:1][0]))
	p := uintptr(unsafe.Pointer(&tok[0]))
	return p >= base && p+uintptr(len(tok)) <= base+uintptr(len(buf))
}

// drive* run a consumer to its end under a caller policy and return a description of a failure ("" = fine).
// policy 0: stop at the first error; 1: continue until io.EOF (bounded); 2: also call again after the end.
type driveResult struct {
	calls int
	fail  string
}

func driveGeneric(n int, policy int, next func() (isErr bool, tok []byte, err error), buf func() []byte) driveResult {
	limit := 4*n + 64
	calls := 0
	var lastErr error
	for calls < limit {
		isErr, tok, err := next()
		calls++
		if !isErr && !inside(tok, buf()) {
			return driveResult{calls, fmt.Sprintf("token %q lies outside the input", tok)}
		}
		if isErr {
			lastErr = err
			if policy == 0 {
				return driveResult{calls, ""}
			}
			if err == io.EOF {
				break
			}
			// a non-EOF error: the terminal report may be this error repeated (XML NUL, JSON): detect stability
			isErr2, _, err2 := next()
			calls++
			if isErr2 && err2 != nil && err != nil && err2.Error() == err.Error() {
				isErr3, _, err3 := next()
				calls++
				if isErr3 && err3 != nil && err3.Error() == err.Error() {
					break // sticky non-EOF terminal report
				}
			}
			if isErr2 && err2 == io.EOF {
				lastErr = err2
				break
			}
		}
	}
	if calls >= limit {
		return driveResult{calls, fmt.Sprintf("no end-of-input report after %d calls on %d bytes", calls, n)}
	}
	if policy == 2 {
		for k := 0; k < 3; k++ {
			isErr, _, err := next()
			calls++
			if !isErr || err == nil || lastErr == nil || err.Error() != lastErr.Error() {
				return driveResult{calls, fmt.Sprintf("the end report is not repeated: call %d after the end gave isErr=%v err=%v (end was %v)", k, isErr, err, lastErr)}
			}
		}
	}
	return driveResult{calls, ""}
}

func driveCSSLexer(src []byte, policy int) driveResult {
	in := parse.NewInputBytes(src)
	l := css.NewLexer(in)
	return driveGeneric(len(src), policy, func() (bool, []byte, error) {
		tt, data := l.Next()
		return tt == css.ErrorToken, data, l.Err()
	}, in.Bytes)
}

func driveCSSParser(src []byte, inline bool, policy int) driveResult {
	in := parse.NewInputBytes(src)
	p := css.NewParser(in, inline)
	return driveGeneric(len(src), policy, func() (bool, []byte, error) {
		gt, _, _ := p.Next()
		_ = p.Values()
		err := p.Err()
		if gt == css.ErrorGrammar && err != io.EOF {
			// parse errors are reported and parsing continues: not terminal
			return false, nil, nil
		}
		return gt == css.ErrorGrammar, nil, err
	}, in.Bytes)
}

func driveHTML(src []byte, tmpl *[2]string, policy int) driveResult {
	in := parse.NewInputBytes(src)
	var l *html.Lexer
	if tmpl == nil {
		l = html.NewLexer(in)
	} else {
		l = html.NewTemplateLexer(in, *tmpl)
	}
	return driveGeneric(len(src), policy, func() (bool, []byte, error) {
		tt, data := l.Next()
		if tt != html.ErrorToken {
			_ = l.Text()
			_ = l.AttrKey()
			_ = l.AttrVal()
			_ = l.HasTemplate()
		}
		return tt == html.ErrorToken, data, l.Err()
	}, in.Bytes)
}

func driveXML(src []byte, policy int) driveResult {
	in := parse.NewInputBytes(src)
	l := xml.NewLexer(in)
	return driveGeneric(len(src), policy, func() (bool, []byte, error) {
		tt, data := l.Next()
		if tt != xml.ErrorToken {
			_ = l.Text()
			_ = l.AttrVal()
		}
		return tt == xml.ErrorToken, data, l.Err()
	}, in.Bytes)
}

func driveJSON(src []byte, policy int) driveResult {
	in := parse.NewInputBytes(src)
	p := json.NewParser(in)
	return driveGeneric(len(src), policy, func() (bool, []byte, error) {
		gt, data := p.Next()
		_ = p.State()
		return gt == json.ErrorGrammar, data, p.Err()
	}, in.Bytes)
}

func driveJSLexer(src []byte, policy int) driveResult {
	in := parse.NewInputBytes(src)
	l := js.NewLexer(in)
	k := 0
	return driveGeneric(len(src), policy, func() (bool, []byte, error) {
		tt, data := l.Next()
		k++
		if (tt == js.DivToken || tt == js.DivEqToken) && k%3 == 0 {
			tt, data = l.RegExp()
		}
		err := l.Err()
		if tt == js.ErrorToken && err != io.EOF {
			return false, data, nil // lexical errors are reported and lexing continues
		}
		return tt == js.ErrorToken, data, err
	}, in.Bytes)
}

var htmlTemplates = [][2]string{html.GoTemplate, html.HandlebarsTemplate, html.MustacheTemplate, html.EJSTemplate, html.ASPTemplate, html.PHPTemplate}

var c01Fragments = []string{
	"a", "b", "1", "1.5e3", "0x1F", "1n", " ", "\n", "\t", "\r\n", "\u2028", "é", "€", "\xF0", "\x80", "\x00", "\\", "\\u0061", "\\u{62}",
	"(", ")", "[", "]", "{", "}", "<", ">", "/", "*", "+", "-", "=", "!", "?", ":", ";", ",", ".", "...", "=>", "??", "?.", "**", "&&", "||", "#", "@", "~", "%", "^", "|", "&",
	"'", "\"", "`", "${", "//", "/*", "*/", "<!--", "-->", "<![CDATA[", "]]>", "<?", "?>", "<%", "%>", "{{", "}}", "<script", "</script", "<style>", "</style>", "<svg", "</svg>", "<math>", "<a ", "</a>", " b=c", " d='e'", " f=\"g\"",
	"url(", "U+1?", "!important", "@media", "@font-face", "--x", ":root", "10px", "50%", "#fff", "<!DOCTYPE ", "&amp;", "&#x41;",
	"if", "else", "for", "while", "do", "function", "class", "extends", "static", "async", "await", "yield", "let", "const", "var", "new", "return", "typeof", "in", "of", "import", "export", "default", "from", "as", "get", "set", "try", "catch", "finally", "switch", "case", "throw", "this", "super", "null", "true", "false", "delete", "void", "with", "debugger", "break", "continue",
	"null", "true", "false", "\"k\":", "[1,2]", "{\"a\":1}", "-0", "1e5", "\"\\n\"", "\"\\u00e9\"",
}

var c01Programs = []string{
	"var a = 1, b = a + 2 * 3;", "function f(a, b = 1, ...c) { return a ? b : c }", "class A extends B { static #p = 1; get x() { return this.#p } [k]() {} static { f() } }",
	"for (let i = 0; i < n; i++) { if (i % 2) continue; else break }", "for (const x of xs) for (k in o) ;", "async function* g() { yield* h(); await x; for await (a of b); }",
	"x = a ?? b | c && d || e; y = a ** -b ** c; z = (a, b) => ({a, b, ...c});", "let {a, b: [c, d = 1], ...e} = f, [g,, h] = i;", "try { throw new Error(`a${b}c${`d${e}`}`) } catch ({message}) {} finally {}",
	"switch (a) { case 1: b; default: c }", "label: while (a) do { break label } while (b)", "import a, {b as c} from 'd'; export default function () {}; export {e as f}; export * from 'g';",
	"a = b /c/ d; e = /[/]\\//g.test(f); g = h++ + ++i - -j;", "o = {get a() {}, set a(v) {}, async *b() {}, [c]: d, e, 'f': 1, 2: 3};", "if (a) b\nelse c\nd\n++e\nreturn\nf", "a?.b?.[c]?.(d); new.target; import.meta; new a.b(c)(d); super.x;",
	"!function(){}(); (async () => { await 0 })(); x = async (a) => a; y = async a => a; (a, b);", "with (a) debugger; var yield, await, async, let, of, get, set, static;", "'use strict'; \"use asm\"; 0b101n + 0o17 + 0xFFn + 1_000.5e-3 + .5;", "<!-- html comment\na --> b\n/* c */ // d",
	// documents for the other consumers (every truncation of each is tried)
	"<!DOCTYPE html><html lang=en><head><title>a&amp;b</title><script>if (a<b) {x='</scr'+'ipt>'} <!-- <script> --></script><style>a{b:c}</style></head><body class='x y' id=\"z\" data-a=b hidden><p>t<br/><svg><path d=\"M0\"/></svg><math><mi>x</mi></math><textarea></textarea><![CDATA[x]]><!-- c --></p></body></html>",
	"<p>{{ printf \"a\\\"b\" }}</p><a href=\"{{ .URL | safe }}\" {{ if .X }}checked{{ end }}>{{/* c */}}<script>var x = {{ .J }};</script>",
	"<div><% if (a) { %><b><%= 'it\\'s' %></b><% } %><?php echo \"a\\\"b\"; ?><?= $x ?></div>",
	"<?xml version=\"1.0\" encoding='UTF-8'?><!DOCTYPE a [<!ENTITY e \"x>y\">]><a b=\"c\" d='e'><!-- f --><![CDATA[g]]><h/>text&amp;<?pi x?></a>",
	"@charset \"utf-8\"; @import url(a.css) screen; @media (max-width:400px) and print { a:hover > b ~ c + d[e=\"f\" i]::before { color: #fff !important; margin: -1.5e3px 50% calc(1px + 2em) url( 'x' ); --v: { a: b }; *zoom: 1; } } @font-face { font-family: x; src: url(y) } a{b:c;d:e}/* f */ <!-- --> u+1f?? \\66 oo",
	"{\"a\": [1, -2.5e+3, true, false, null, \"s\\n\\u00e9\\\"\", {\"b\": {}}, []], \"c\" : \"d\"}",
}

func c01Oracle(r *Rng, tier string, rep *Report) {
	// (1) every recursive construct nested 10^6 deep, in a child process
	depth := "1000000"
	self, _ := os.Executable()
	cmd := exec.Command(self, "deepnest", depth)
	var outb bytes.Buffer
	cmd.Stdout = &outb
	cmd.Stderr = &outb
	done := make(chan error, 1)
	if err := cmd.Start(); err == nil {
		go func() { done <- cmd.Wait() }()
		select {
		case err := <-done:
			txt := outb.String()
			if err != nil || !strings.Contains(txt, "DEEPNEST-OK") {
				// pinpoint: one child per construct
				found := false
				for _, ns := range jsNests {
					c2 := exec.Command(self, "deepnest", depth, ns.name)
					var ob bytes.Buffer
					c2.Stdout, c2.Stderr = &ob, &ob
					e2 := c2.Run()
					t2 := ob.String()
					if e2 != nil || !strings.Contains(t2, "DEEPNEST-OK") {
						kind := "crash"
						if strings.Contains(t2, "stack overflow") || strings.Contains(t2, "stack exceeds") {
							kind = "fatal stack overflow"
						}
						src := ns.head + ns.unit + ns.unit + ns.unit + "..."
						rep.Violate("c01-deepnest:"+ns.name, fmt.Sprintf("js.Parse on %q nested %s deep: %s in the child process (%v)", src, depth, kind, e2), map[string]interface{}{"cmd": "harness deepnest " + depth + " " + ns.name, "construct": ns.name, "head": ns.head, "unit": ns.unit, "depth": depth})
						found = true
					}
				}
				if !found {
					rep.Violate("c01-deepnest:other", fmt.Sprintf("deep nesting run failed (%v): %s", err, trunc(txt[max(0, len(txt)-400):], 400)), map[string]interface{}{"cmd": "harness deepnest " + depth})
				}
			}
		case <-time.After(600 * time.Second):
			cmd.Process.Kill()
			rep.Violate("c01-deepnest:timeout", "deep nesting run did not finish in 600 s (hang)", map[string]interface{}{"cmd": "harness deepnest " + depth})
		}
	}
	rep.Eval("deepnest", true, "deepnest")
	for _, ns := range jsNests {
		rep.Eval("deepnest:"+ns.name, true, "deepnest")
	}

	// (1b) moderate depths: a tree that js.Parse returns must be printable, walkable and convertible in time that does not
	// explode with the depth (ExprStmt.String was exponential: 24 nested `x=function(){` took 20 s). Each method gets 5 s
	// on inputs below 64 KB; a quadratic algorithm needs milliseconds there.
	midNests := append([]nestSpec{{"funcexpr-stmt", "", "x=function(){", "};", ""}, {"arrow-stmt", "", "x=()=>{", "};", ""},
		{"iife", "", "(function(){", "})();", ""}, {"objmethod-stmt", "", "x={m(){", "}};", ""}, {"class-stmt", "", "x=class{m(){", "}};", ""},
		{"cond-stmt", "", "a?b:", "", "c;"}, {"call-stmt", "", "f(", ");", "a"}, {"template-stmt", "", "x=`${", "}`;", "1"}}, jsNests...)
	for _, ns := range midNests {
		slow := false
		for _, d := range []int{24, 60, 150} { // an exponential method is hopeless at 60; polynomial costs (nested indenters are cubic) stay small up to 150
			if slow {
				break
			}
			src := ns.head + strings.Repeat(ns.unit, d) + ns.tail + strings.Repeat(ns.close, d)
			if len(src) > 65536 {
				break
			}
			var ast *js.AST
			var err error
			if pan := catch(func() { ast, err = js.Parse(parse.NewInputString(src), js.Options{}) }); pan != nil || err != nil || ast == nil {
				rep.Eval(fmt.Sprintf("middepth:%s:%d:rejected", ns.name, d), true, "middepth-rejected")
				continue
			}
			for _, m := range []struct {
				name string
				f    func()
			}{{"String", func() { _ = ast.String() }}, {"JSString", func() { _ = ast.JSString() }}, {"JSONString", func() { _, _ = ast.JSONString() }}, {"Walk", func() { js.Walk(&enterAll{}, ast) }}} {
				done := make(chan interface{}, 1)
				f := m.f
				go func() { done <- catch(f) }()
				select {
				case pan := <-done:
					if pan != nil {
						rep.Violate("c01-panic:tree:"+ns.name+":"+m.name, fmt.Sprintf("%s of the tree of %q nested %d deep panics: %v", m.name, ns.head+ns.unit+ns.unit+"...", d, pan), map[string]interface{}{"construct": ns.name, "depth": d, "method": m.name})
					}
				case <-time.After(5 * time.Second):
					slow = true
					rep.Violate("c01-slow:"+ns.name+":"+m.name, fmt.Sprintf("%s of the tree js.Parse returns for %q nested %d deep (%d bytes) did not finish in 5 s", m.name, ns.head+ns.unit+ns.unit+"...", d, len(src)), map[string]interface{}{"construct": ns.name, "head": ns.head, "unit": ns.unit, "close": ns.close, "tail": ns.tail, "depth": d, "method": m.name})
				}
				rep.Eval(fmt.Sprintf("middepth:%s:%d:%s", ns.name, d, m.name), true, "middepth")
				if slow {
					break
				}
			}
		}
	}

	// (2) every consumer on generated, truncated and malformed inputs under the three caller policies
	n := 6000
	if tier == "thorough" {
		n = 200000
	}
	check := func(src []byte) {
		key := hx(src)
		nontrivial := len(src) >= 3
		type ent struct {
			name string
			f    func(policy int) driveResult
		}
		ents := []ent{
			{"css-lexer", func(p int) driveResult { return driveCSSLexer(src, p) }},
			{"css-parser", func(p int) driveResult { return driveCSSParser(src, false, p) }},
			{"css-parser-inline", func(p int) driveResult { return driveCSSParser(src, true, p) }},
			{"html", func(p int) driveResult { return driveHTML(src, nil, p) }},
			{"xml", func(p int) driveResult { return driveXML(src, p) }},
			{"json", func(p int) driveResult { return driveJSON(src, p) }},
			{"js-lexer", func(p int) driveResult { return driveJSLexer(src, p) }},
		}
		for ti := range htmlTemplates {
			t := htmlTemplates[ti]
			ents = append(ents, ent{"html-template-" + t[0], func(p int) driveResult { return driveHTML(src, &t, p) }})
		}
		for _, e := range ents {
			for policy := 0; policy < 3; policy++ {
				var res driveResult
				if p := catch(func() { res = e.f(policy) }); p != nil {
					rep.Violate("c01-panic:"+e.name+":"+key, fmt.Sprintf("%s panicked on %q (policy %d): %v", e.name, src, policy, p), map[string]interface{}{"entry": e.name, "input": key, "policy": policy})
				} else if res.fail != "" {
					rep.Violate("c01-drive:"+e.name+":"+key, fmt.Sprintf("%s on %q (policy %d): %s", e.name, src, policy, res.fail), map[string]interface{}{"entry": e.name, "input": key, "policy": policy})
				}
			}
		}
		for _, o := range allJSOptions {
			if p := catch(func() {
				ast, err := js.Parse(parse.NewInputBytes(append([]byte{}, src...)), o)
				if err == nil {
					useTree(ast)
				}
			}); p != nil {
				rep.Violate("c01-panic:js.Parse:"+key, fmt.Sprintf("js.Parse/print/walk/JSON panicked on %q with %+v: %v", src, o, p), map[string]interface{}{"entry": "js.Parse", "input": key, "options": fmt.Sprintf("%+v", o)})
			}
		}
		rep.Eval(key, nontrivial, "inputs")
	}
	// every truncation of every corpus program
	for _, p := range c01Programs {
		for i := 0; i <= len(p); i++ {
			check([]byte(p[:i]))
		}
	}
	// programs from the ES2022 grammar generator of C03 (every statement, declaration, class, function, arrow,
	// destructuring, template and operator form), as written, truncated and with one byte mutated
	np := 700
	if tier == "thorough" {
		np = 30000
	}
	for it := 0; it < np; it++ {
		var src []byte
		if pan := catch(func() {
			g := c03NewProgGen(r, it%4)
			src = c03Spell3(r, g.program(1+r.Intn(3), 1+r.Intn(3)))
		}); pan != nil || len(src) == 0 {
			continue
		}
		check(src)
		if len(src) > 1 {
			check(src[:1+r.Intn(len(src)-1)])
			m := append([]byte{}, src...)
			i := r.Intn(len(m))
			switch r.Intn(3) {
			case 0:
				m = append(m[:i], m[i+1:]...)
			case 1:
				m[i] = c01Fragments[r.Intn(len(c01Fragments))][0]
			default:
				m = append(m[:i], append([]byte(c01Fragments[r.Intn(len(c01Fragments))]), m[i:]...)...)
			}
			check(m)
		}
	}
	for it := 0; it < n; it++ {
		var sb []byte
		k := 1 + r.Intn(12)
		if r.Chance(1, 4) {
			sb = append(sb, c01Programs[r.Intn(len(c01Programs))]...)
			// mutate: delete / insert / flip
			for m := 0; m < 1+r.Intn(3) && len(sb) > 0; m++ {
				i := r.Intn(len(sb))
				switch r.Intn(3) {
				case 0:
					sb = append(sb[:i], sb[i+1:]...)
				case 1:
					fr := c01Fragments[r.Intn(len(c01Fragments))]
					sb = append(sb[:i], append([]byte(fr), sb[i:]...)...)
				default:
					sb[i] = byte(r.Intn(256))
				}
			}
		} else {
			for j := 0; j < k; j++ {
				sb = append(sb, c01Fragments[r.Intn(len(c01Fragments))]...)
				if r.Chance(1, 3) {
					sb = append(sb, ' ')
				}
			}
		}
		check(sb)
	}
}

func max(a, b int) int {
	if a > b {
		return a
	}
	return b
}

// ---- UnaryExpr.JSON model (the AST method that dereferenced a nil literal) -------------------------
var unaryJSONModel = &Model{
	Name: "unaryjson",
	Gen: func(r *Rng, tier string, emit func(Case)) {
		ops := []js.TokenType{js.NegToken, js.NotToken, js.PosToken, js.BitNotToken, js.TypeofToken}
		tts := []js.TokenType{js.DecimalToken, js.IntegerToken, js.StringToken, js.BinaryToken, js.IdentifierToken}
		datas := [][]byte{{}, []byte("0"), []byte("1"), []byte("10"), []byte("2"), []byte("1.5"), []byte("'a'"), []byte("01")}
		for _, op := range ops {
			for isLit := int64(0); isLit < 2; isLit++ {
				for _, tt := range tts {
					for _, d := range datas {
						args := []int64{int64(js.NegToken), int64(js.NotToken), int64(js.DecimalToken), int64(js.IntegerToken), int64(op), isLit, int64(tt)}
						args = append(args, bytesToArgs(d)...)
						emit(Case{Fn: "unaryjson", Args: args, Note: fmt.Sprintf("UnaryExpr{%v, lit=%d %v %q}.JSON", op, isLit, tt, d)})
					}
				}
			}
		}
	},
	Impl: func(c Case) []int64 {
		a := c.Args
		dv, _ := takeList(a[7:])
		var x js.IExpr
		if a[5] == 1 {
			x = &js.LiteralExpr{TokenType: js.TokenType(a[6]), Data: toBytes(dv)}
		} else {
			x = &js.Var{Data: []byte("a")}
		}
		n := js.UnaryExpr{Op: js.TokenType(a[4]), X: x}
		var w bytes.Buffer
		var err error
		if p := catch(func() { err = n.JSON(&w) }); p != nil {
			return []int64{-1}
		}
		if err != nil {
			return []int64{4}
		}
		switch out := w.String(); {
		case out == "true":
			return []int64{2}
		case out == "false":
			return []int64{3}
		case strings.HasPrefix(out, "-"):
			res := []int64{1}
			for _, ch := range []byte(out[1:]) {
				res = append(res, int64(ch))
			}
			return res
		}
		return []int64{-5}
	},
	Class: func(c Case, out []int64) string { return fmt.Sprintf("result%d", out[0]) },
}

func init() {
	props["C01"] = &PropSpec{
		Models:  []*Model{unaryJSONModel},
		Oracles: []*Oracle{{Name: "c01-no-crash-hang-overread", Run: c01Oracle}},
	}
}
