#!/bin/sh
# usage: goal.sh file.v LINE  -> prints the goals just before LINE (1-based) of the file
f=$1; n=$2
head -n $((n-1)) $f > /tmp/goal_tmp.v
echo "Show. " >> /tmp/goal_tmp.v
cd /work/c07/coq && coqc -Q theories Verif /tmp/goal_tmp.v 2>&1 | head -${3:-60}
