#!/bin/sh
# dev helper: build harness + run C07 harness, summarise
export GOFLAGS=-mod=mod GOPROXY=off GOSUMDB=off GOTOOLCHAIN=local
P=${1:-C07}
cd /work/c07/harness && go build -tags verif -o bin/harness . || exit 1
VERIF_ROOT=/work/c07 ./bin/harness run $P -tier ${2:-quick} -seed ${3:-1} -out /tmp/$P.json -modelrun /work/c07/ocaml/build/modelrun
python3 - $P <<'PY'
import json,sys
r=json.load(open('/tmp/%s.json'%sys.argv[1]))
print(r['errors'])
for c in r['corr'] or []:
    print(c['model'],c['cases'],c['distinct'],len(c['mismatches']))
    for m in c['mismatches'][:8]: print('  ',m['case'][:200],m['note'][:200],m['impl'][:80],'|',m['model'][:300])
    print(c['histogram'])
for s in r['search'] or []:
    print(s['name'],s['evaluations'],s['nontrivial'],len(s['violations']),s['histogram'])
    for v in s['violations'][:10]: print('  ',v['key'][:60],v['desc'][:400])
PY
